package core

// Sorted-set command generator (property C17). Small key/member universes so that sets overlap, scores
// drawn from a handful of exactly representable values so that ties are frequent, every flag and
// option combination, negative / zero / out-of-range indices, LIMIT windows, lexicographic bounds,
// multi-key forms with weights and aggregates, destination among the sources, wrong-type keys.

var ZMembers = []string{"a", "b", "c", "d", "ab", "", "m\r\n", "\x00\xff"}

// ZScores: mostly a few values (ties), some infinities, a few outside the exact domain or malformed.
var ZScores = []string{"1", "1", "2", "2", "3", "1.5", "-1", "0", "2.5", "0.25", "-2.75", "1e2", "5", "1", "2",
	"-inf", "+inf", "inf", "+INF", "x", "", "nan", "0.1", "1e400", "-0", "3.0", "(1", "9007199254740993", "1_0"}

var ZBounds = []string{"-inf", "+inf", "inf", "0", "1", "2", "3", "1.5", "-1", "2.5", "5", "100", "-inf", "+inf", "(1", "x", "", "-INF", "1e400"}
var ZLexBounds = []string{"a", "b", "c", "d", "ab", "", "z", "\x00", "m", "[a", "(b", "-", "+", "aa", "B"}
var ZWeights = []string{"1", "1", "2", "3", "-1", "0", "1", "2", "x", "1.5", "10"}

func (g *Gen) zcase(s string) string {
	if g.R.Intn(5) == 0 {
		return upper(s)
	}
	return s
}

func (g *Gen) ZSetCommand() []string {
	k := func() string { return g.Pick(Keys) }
	m := func() string { return g.Pick(ZMembers) }
	sc := func() string { return g.Pick(ZScores) }
	keys := func() []string {
		n := 1 + g.R.Intn(3)
		var o []string
		for i := 0; i < n; i++ {
			o = append(o, k())
		}
		return o
	}
	members := func() []string {
		n := 1 + g.R.Intn(3)
		var o []string
		for i := 0; i < n; i++ {
			o = append(o, m())
		}
		return o
	}
	cnt := func() string { return g.Pick([]string{"0", "1", "2", "3", "-1", "-2", "-5", "10", "x", "1e0", "", "2", "1"}) }
	idx := func() string { return g.Pick([]string{"0", "1", "2", "3", "-1", "-2", "-3", "5", "-7", "100", "x", "1.5", "", "0", "1", "-1"}) }
	rangeOpts := func(store bool) []string {
		var o []string
		if g.Chance(0.25) {
			o = append(o, g.zcase("byscore"))
		}
		if g.Chance(0.3) {
			o = append(o, g.zcase("rev"))
		}
		if g.Chance(0.4) {
			o = append(o, g.zcase("limit"))
			if g.Chance(0.95) {
				o = append(o, g.Pick([]string{"0", "0", "1", "2", "3", "-1", "10", "x"}))
				if g.Chance(0.95) {
					o = append(o, g.Pick([]string{"0", "1", "2", "3", "-1", "10", "x", "1", "2"}))
				}
			}
		}
		if g.Chance(0.4) {
			o = append(o, g.zcase("withscores"))
		}
		if g.Chance(0.03) {
			o = append(o, g.Pick([]string{"zz", "", "bylex"}))
		}
		return o
	}
	combineOpts := func(nkeys int) []string {
		var o []string
		if g.Chance(0.45) {
			o = append(o, g.zcase("weights"))
			n := nkeys
			if g.Chance(0.1) {
				n = g.R.Intn(4)
			}
			for i := 0; i < n; i++ {
				o = append(o, g.Pick(ZWeights))
			}
		}
		if g.Chance(0.45) {
			o = append(o, g.zcase("aggregate"))
			if g.Chance(0.97) {
				o = append(o, g.Pick([]string{"sum", "min", "max", "SUM", "MIN", "MAX", "avg", ""}))
			}
		}
		if g.Chance(0.4) {
			o = append(o, g.zcase("withscores"))
		}
		return o
	}
	switch g.R.Intn(60) {
	case 0, 1, 2, 3, 4, 5, 6, 7:
		c := []string{g.zcase("zadd"), k()}
		for _, f := range []string{"nx", "xx", "gt", "lt", "ch", "incr"} {
			if g.Chance(0.17) {
				c = append(c, g.zcase(f))
			}
		}
		if g.Chance(0.02) {
			c = append(c, g.Pick([]string{"zz", "", "nx"}))
		}
		n := 1 + g.R.Intn(3)
		if g.Chance(0.5) {
			n = 1
		}
		for i := 0; i < n; i++ {
			c = append(c, sc(), m())
		}
		if g.Chance(0.03) {
			c = append(c, sc())
		}
		return c
	case 8, 9, 10:
		return []string{g.zcase("zincrby"), k(), sc(), m()}
	case 11, 12:
		return append([]string{"zrem", k()}, members()...)
	case 13:
		return []string{"zcard", k()}
	case 14, 15:
		return []string{"zscore", k(), m()}
	case 16:
		return append([]string{"zmscore", k()}, members()...)
	case 17, 18:
		return []string{"zcount", k(), g.Pick(ZBounds), g.Pick(ZBounds)}
	case 19, 20:
		return []string{"zlexcount", k(), g.Pick(ZLexBounds), g.Pick(ZLexBounds)}
	case 21, 22, 23:
		c := []string{g.Pick([]string{"zrank", "zrevrank", "ZRANK", "ZREVRANK"}), k(), m()}
		if g.Chance(0.4) {
			c = append(c, g.Pick([]string{"withscores", "WITHSCORES", "withscore", "x"}))
		}
		return c
	case 24, 25, 26:
		c := []string{g.Pick([]string{"zpopmin", "zpopmax", "ZPOPMIN", "ZPOPMAX"}), k()}
		if g.Chance(0.6) {
			c = append(c, cnt())
		}
		return c
	case 27, 28, 29:
		c := append([]string{g.zcase("zmpop")}, keys()...)
		if g.Chance(0.9) {
			c = append(c, g.Pick([]string{"min", "max", "MIN", "MAX"}))
		}
		if g.Chance(0.5) {
			c = append(c, g.zcase("count"))
			if g.Chance(0.95) {
				c = append(c, cnt())
			}
		}
		return c
	case 30, 31:
		c := []string{"zrandmember", k()}
		if g.Chance(0.7) {
			c = append(c, cnt())
			if g.Chance(0.4) {
				c = append(c, g.Pick([]string{"withscores", "WITHSCORES", "x"}))
			}
		}
		return c
	case 32, 33:
		return []string{"zremrangebyscore", k(), g.Pick(ZBounds), g.Pick(ZBounds)}
	case 34, 35, 36:
		return []string{"zremrangebyrank", k(), idx(), idx()}
	case 37, 38:
		return []string{"zremrangebylex", k(), g.Pick(ZLexBounds), g.Pick(ZLexBounds)}
	case 39, 40, 41, 42, 43:
		if g.Chance(0.3) {
			return append([]string{g.zcase("zrange"), k(), g.Pick(ZLexBounds), g.Pick(ZLexBounds), g.zcase("bylex")}, rangeOpts(false)...)
		}
		if g.Chance(0.5) {
			return append([]string{g.zcase("zrange"), k(), "-inf", "+inf"}, rangeOpts(false)...)
		}
		return append([]string{g.zcase("zrange"), k(), g.Pick(ZBounds), g.Pick(ZBounds)}, rangeOpts(false)...)
	case 44, 45, 46:
		if g.Chance(0.3) {
			return append([]string{"zrangestore", k(), k(), g.Pick(ZLexBounds), g.Pick(ZLexBounds), g.zcase("bylex")}, rangeOpts(true)...)
		}
		if g.Chance(0.5) {
			return append([]string{"zrangestore", k(), k(), "-inf", "+inf"}, rangeOpts(true)...)
		}
		return append([]string{"zrangestore", k(), k(), g.Pick(ZBounds), g.Pick(ZBounds)}, rangeOpts(true)...)
	case 47, 48:
		c := append([]string{"zdiff"}, keys()...)
		if g.Chance(0.4) {
			c = append(c, g.zcase("withscores"))
		}
		return c
	case 49, 50:
		return append([]string{"zdiffstore", k()}, keys()...)
	case 51, 52:
		ks := keys()
		return append(append([]string{g.zcase("zinter")}, ks...), combineOpts(len(ks))...)
	case 53, 54:
		ks := keys()
		return append(append([]string{g.zcase("zunion")}, ks...), combineOpts(len(ks))...)
	case 55, 56:
		ks := keys()
		return append(append([]string{"zinterstore", k()}, ks...), combineOpts(len(ks))...)
	case 57, 58:
		ks := keys()
		return append(append([]string{"zunionstore", k()}, ks...), combineOpts(len(ks))...)
	default:
		name := g.Pick([]string{"zadd", "zcard", "zcount", "zdiff", "zdiffstore", "zincrby", "zinter", "zinterstore", "zmpop", "zmscore", "zpopmax", "zpopmin",
			"zrandmember", "zrank", "zrevrank", "zrem", "zscore", "zremrangebylex", "zremrangebyrank", "zremrangebyscore", "zlexcount", "zrange", "zrangestore", "zunion", "zunionstore"})
		n := g.R.Intn(6)
		c := []string{name}
		for i := 0; i < n; i++ {
			c = append(c, g.Pick([]string{"k1", "k2", "1", "a", "", "2", "weights", "limit", "min"}))
		}
		return c
	}
}

func zsetAlphabet() [][]string {
	return [][]string{
		{"zadd", "k1", "1", "a", "2", "b"}, {"zadd", "k1", "2", "a", "2", "c"}, {"zadd", "k1", "nx", "5", "a", "5", "z"}, {"zadd", "k1", "xx", "ch", "7", "a", "7", "q"},
		{"zadd", "k1", "gt", "0", "b", "-1", "n"}, {"zadd", "k1", "xx", "lt", "ch", "9", "a"}, {"zadd", "k1", "incr", "1.5", "a"}, {"zadd", "k9", "xx", "1", "n"},
		{"zadd", "k2", "3", "b", "1", "e"}, {"zincrby", "k1", "2", "a"}, {"zincrby", "k1", "-inf", "w"}, {"zrem", "k1", "a", "zz"},
		{"zcard", "k1"}, {"zscore", "k1", "a"}, {"zmscore", "k1", "a", "zz"}, {"zmscore", "k9", "a"}, {"zcount", "k1", "1", "2"}, {"zcount", "k1", "-inf", "+inf"},
		{"zlexcount", "k1", "a", "b"}, {"zrank", "k1", "b"}, {"zrevrank", "k1", "b", "withscores"}, {"zpopmin", "k1"}, {"zpopmax", "k1", "2"}, {"zpopmin", "k1", "0"},
		{"zmpop", "k9", "k1", "max"}, {"zmpop", "k4", "k1", "min", "count", "2"}, {"zrandmember", "k1"}, {"zrandmember", "k1", "-5"}, {"zrandmember", "k1", "0"},
		{"zremrangebyscore", "k1", "1", "2"}, {"zremrangebyrank", "k1", "0", "1"}, {"zremrangebyrank", "k1", "1", "10"}, {"zremrangebyrank", "k1", "2", "0"}, {"zremrangebylex", "k1", "a", "b"},
		{"zrange", "k1", "-inf", "+inf"}, {"zrange", "k1", "1", "3", "rev", "withscores"}, {"zrange", "k1", "2", "5", "limit", "0", "1"}, {"zrange", "k1", "-inf", "+inf", "limit", "1", "2"},
		{"zrange", "k1", "a", "c", "bylex"}, {"zrangestore", "k3", "k1", "-inf", "+inf", "limit", "0", "1"}, {"zrangestore", "k3", "k9", "0", "1"},
		{"zdiff", "k1", "k2", "withscores"}, {"zdiffstore", "k3", "k1", "k2"}, {"zdiffstore", "k3", "k9", "k1"}, {"zinter", "k1", "k2", "weights", "2", "3", "aggregate", "max", "withscores"},
		{"zinterstore", "k3", "k1", "k2"}, {"zinterstore", "k1", "k1", "k2"}, {"zinterstore", "k3", "k1", "k9"}, {"zunion", "k1", "k2", "k9", "aggregate", "min", "withscores"},
		{"zunionstore", "k3", "k1", "k2", "weights", "1", "-1"}, {"zunionstore", "k1", "k1", "k2"}, {"zunionstore", "k3", "k1"}, {"zrange", "k3", "-inf", "+inf", "withscores"},
		{"zcard", "k4"}, {"del", "k1"}, {"set", "k1", "v"},
	}
}

func zsetBases() [][]Op {
	mk := func(cmds ...[]string) []Op {
		var o []Op
		for _, c := range cmds {
			o = append(o, Op{Conn: -1, Cmd: HexCmd(c)})
		}
		return o
	}
	return [][]Op{
		mk(),
		mk([]string{"zadd", "k1", "1", "a", "2", "b", "3", "c"}, []string{"zadd", "k2", "2", "b", "3", "c", "4", "d"}, []string{"set", "k4", "str"}),
		mk([]string{"zadd", "k1", "1", "a", "1", "b", "1", "ab"}, []string{"zadd", "k2", "1", "b", "2", "c", "2", "d"}, []string{"zadd", "k3", "5", "a", "+inf", "z"}, []string{"pexpire", "k1", "1000"}),
	}
}

// zsetScripts: STORE forms followed by writes to one side and reads of the other (pointer-sharing
// probes), destination among the sources, ties, LIMIT windows.
func zsetScripts() [][][]string {
	probe := func(store ...string) [][]string {
		return [][]string{
			{"zadd", "k1", "1", "a", "2", "b", "3", "c"}, {"zadd", "k2", "2", "b", "5", "e"}, store,
			{"zadd", "k3", "9", "z"}, {"zrange", "k1", "-inf", "+inf", "withscores"}, {"zrange", "k3", "-inf", "+inf", "withscores"},
			{"zrem", "k1", "a"}, {"zincrby", "k1", "10", "b"}, {"zrange", "k3", "-inf", "+inf", "withscores"}, {"zpopmin", "k3"}, {"zrange", "k1", "-inf", "+inf", "withscores"},
		}
	}
	return [][][]string{
		// equal scores inserted in an order no rotation of which is sorted (small Go maps iterate a rotation of the insertion order)
		{{"zadd", "k1", "1", "b", "1", "a", "1", "c"}, {"zrange", "k1", "-inf", "+inf"}},
		// rarely generated malformed / marginal forms, kept in the scripted part so that every run meets them
		{{"zadd", "1", "2", "2"}, {"zadd", "k1", "1", "m"}, {"zrank", "k1", "m", "withscore"}, {"zrevrank", "k1", "m", "WITHSCORE"},
			{"zunionstore", "a", "weights"}, {"zadd", "k2", "nx", "xx", "1", "m"}, {"zadd", "k2", "1", "b", "x", "d"}, {"zinterstore", "k3", "k1", "withscores"},
			{"zcount", "k1", "-INF", "+INF"}, {"zadd", "k1", "gt", "ch", "2", "e", "2", "d", "1.5", "d"}},
		// regression inputs of repaired defects: AGGREGATE as the last token of the four combining commands (a syntax
		// error now, a panic before), a zero count (an empty array now, one member before), a negative ZPOP count
		{{"zadd", "k1", "1", "a", "2", "b"}, {"zadd", "k2", "2", "b"}, {"zunion", "k1", "aggregate"}, {"zinter", "k1", "k2", "WEIGHTS", "1", "0", "aggregate"},
			{"zunionstore", "k3", "k1", "AGGREGATE"}, {"zinterstore", "k3", "k1", "k2", "weights", "2", "10", "aggregate"}, {"zunion", "k1", "k2", "withscores", "aggregate"},
			{"zpopmin", "k1", "0"}, {"zpopmax", "k1", "0"}, {"zrandmember", "k1", "0"}, {"zrandmember", "k1", "0", "withscores"}, {"zpopmin", "k9", "0"},
			{"zpopmax", "k1", "-1"}, {"zrange", "k1", "-inf", "+inf", "withscores"}, {"zpopmin", "k1", "1"}, {"zrange", "k1", "-inf", "+inf", "withscores"}},
		// a destination spelled like the command word (regression of a repaired defect: the STORE forms deleted the command
		// word along with the destination and panicked on what was left), and a destination that is also a source
		{{"zadd", "k1", "1", "a", "2", "b"}, {"zadd", "d", "5", "a", "7", "z"}, {"zunionstore", "zunionstore", "weights"}, {"zunionstore", "zunionstore", "k1"},
			{"zunionstore", "zunionstore", "weights"}, {"zinterstore", "zinterstore", "k1", "k1"}, {"zinterstore", "ZINTERSTORE", "k1", "k1", "AGGREGATE"},
			{"zunionstore", "d", "d", "k1"}, {"zrange", "d", "-inf", "+inf", "withscores"}, {"zrange", "zunionstore", "-inf", "+inf", "withscores"}},
		probe("zunionstore", "k3", "k1"),
		probe("zunionstore", "k3", "k1", "k9"),
		probe("zunionstore", "k3", "k1", "weights", "1"),
		probe("zinterstore", "k3", "k1"),
		probe("zinterstore", "k3", "k1", "k1"),
		probe("zdiffstore", "k3", "k1"),
		probe("zdiffstore", "k3", "k1", "k9"),
		probe("zrangestore", "k3", "k1", "-inf", "+inf"),
		probe("zunionstore", "k3", "k1", "k2"),
		probe("zunionstore", "k1", "k1", "k2"),
		probe("zinterstore", "k1", "k1", "k2"),
		{
			{"zadd", "k1", "1", "a", "1", "b", "1", "c", "2", "d", "2", "e"}, {"zrange", "k1", "-inf", "+inf"}, {"zrange", "k1", "-inf", "+inf", "rev"},
			{"zrank", "k1", "b"}, {"zrevrank", "k1", "b"}, {"zrange", "k1", "-inf", "+inf", "limit", "1", "2"}, {"zrange", "k1", "2", "2", "limit", "0", "1"},
			{"zrangestore", "k2", "k1", "-inf", "+inf", "limit", "1", "2"}, {"zremrangebyrank", "k1", "0", "1"}, {"zpopmin", "k1", "2"}, {"zpopmax", "k1"},
		},
		{
			{"zadd", "k1", "0", "a", "0", "b", "0", "ab", "0", "c"}, {"zrange", "k1", "a", "c", "bylex"}, {"zrange", "k1", "a", "b", "bylex", "rev"},
			{"zlexcount", "k1", "a", "b"}, {"zadd", "k1", "1", "d"}, {"zlexcount", "k1", "a", "c"}, {"zlexcount", "k1", "a", "c"}, {"zrange", "k1", "a", "c", "bylex"},
			{"zremrangebylex", "k1", "a", "b"}, {"zrem", "k1", "d"}, {"zremrangebylex", "k1", "a", "b"}, {"zrange", "k1", "-inf", "+inf"},
		},
		{
			{"zadd", "k1", "1", "a"}, {"zadd", "k1", "gt", "ch", "0", "a"}, {"zadd", "k1", "lt", "5", "new"}, {"zadd", "k1", "gt", "-5", "neg"}, {"zadd", "k1", "incr", "2", "fresh"},
			{"zadd", "k1", "xx", "incr", "2", "absent"}, {"zadd", "k1", "nx", "incr", "2", "a"}, {"zadd", "k1", "3", "a"}, {"zadd", "k1", "ch", "3", "a"}, {"zrange", "k1", "-inf", "+inf", "withscores"},
			{"zadd", "k1", "+inf", "a"}, {"zincrby", "k1", "1", "a"}, {"zadd", "k1", "incr", "1", "a"},
		},
		// regression inputs of repaired defects (second batch), one script per repair.
		// ZREMRANGEBYRANK with the start after the stop removes nothing (it used to remove the ranks stop..start)
		{{"zadd", "k1", "1", "a", "2", "b", "3", "c"}, {"zremrangebyrank", "k1", "2", "0"}, {"zremrangebyrank", "k1", "-1", "-3"}, {"zremrangebyrank", "k1", "1", "0"},
			{"zrange", "k1", "-inf", "+inf", "withscores"}, {"zremrangebyrank", "k1", "1", "1"}, {"zremrangebyrank", "k1", "-2", "-1"}, {"zrange", "k1", "-inf", "+inf", "withscores"}},
		// ZRANK / ZREVRANK take the documented WITHSCORE as well as WITHSCORES (WITHSCORE used to be ignored)
		{{"zadd", "k1", "1", "a", "2.5", "b", "+inf", "c"}, {"zrank", "k1", "b", "withscore"}, {"zrevrank", "k1", "c", "WithScore"}, {"zrank", "k1", "a", "WITHSCORES"},
			{"zrevrank", "k1", "b", "withscores"}, {"zrank", "k1", "b", "x"}, {"zrank", "k1", "zz", "withscore"}, {"zrank", "k9", "a", "withscore"}},
		// ZCOUNT takes every spelling of infinity on both bounds (only +inf for min and -inf for max passed besides inf / Inf)
		{{"zadd", "k1", "1", "a", "2", "b", "-inf", "lo", "+inf", "hi"}, {"zcount", "k1", "-INF", "+INF"}, {"zcount", "k1", "-Inf", "2"}, {"zcount", "k1", "INF", "+inf"},
			{"zcount", "k1", "-Infinity", "+infinity"}, {"zcount", "k1", "2", "Inf"}, {"zcount", "k1", "+inf", "-inf"}, {"zcount", "k1", "-iNf", "1"},
			{"zcount", "k1", "min", "2"}, {"zcount", "k1", "1", "max"}, {"zcount", "k1", "nan", "2"}, {"zcount", "k9", "-INF", "+INF"}},
		// ZADD on a key that reads as a number (the scan for the first score used to start at the key)
		{{"zadd", "1", "2", "m"}, {"zadd", "2.5", "nx", "1", "m", "3", "n"}, {"zadd", "-inf", "1", "m"}, {"zadd", "1", "xx", "ch", "5", "m"}, {"zadd", "1", "nx", "a", "b"},
			{"zrange", "1", "-inf", "+inf", "withscores"}, {"zrange", "2.5", "-inf", "+inf", "withscores"}, {"zrange", "-inf", "-inf", "+inf", "withscores"}},
		// ZUNIONSTORE without a source key is refused (it used to store the empty union); ZINTERSTORE with one source key takes
		// options (it used to want two source keys before the first option)
		{{"zadd", "k1", "1", "a", "2", "b"}, {"zadd", "d", "9", "old"}, {"zunionstore", "d", "weights"}, {"zunionstore", "d", "WEIGHTS", "1"}, {"zunionstore", "d", "aggregate", "sum"},
			{"zinterstore", "d", "withscores"}, {"zrange", "d", "-inf", "+inf", "withscores"}, {"zinterstore", "d", "k1", "weights", "2"}, {"zrange", "d", "-inf", "+inf", "withscores"},
			{"zinterstore", "d", "k1", "withscores"}, {"zinterstore", "d", "k1", "AGGREGATE", "max", "weights", "3"}, {"zrange", "d", "-inf", "+inf", "withscores"},
			{"zunionstore", "d", "k1", "weights", "3"}, {"zrange", "d", "-inf", "+inf", "withscores"}, {"zinterstore", "d", "k1", "weights", "1", "2"}},
		// ZADD refuses NX with XX and GT with LT (the later flag used to replace the earlier one); a repeated flag is accepted
		{{"zadd", "k1", "1", "a"}, {"zadd", "k1", "nx", "xx", "5", "a"}, {"zadd", "k1", "XX", "nx", "5", "a", "5", "m"}, {"zadd", "k1", "gt", "lt", "5", "a"},
			{"zadd", "k1", "LT", "ch", "GT", "0", "a"}, {"zadd", "k1", "xx", "gt", "lt", "5", "a"}, {"zadd", "k1", "nx", "gt", "5", "a"}, {"zadd", "k9", "nx", "xx", "5", "a"},
			{"zrange", "k1", "-inf", "+inf", "withscores"}, {"zadd", "k1", "nx", "NX", "7", "fresh"}, {"zadd", "k1", "gt", "GT", "xx", "XX", "9", "a"},
			{"zrange", "k1", "-inf", "+inf", "withscores"}, {"zcard", "k9"}},
	}
}

// ZSetFamily is the sorted-set suite.
func ZSetFamily() Family {
	return Family{Name: "zset", Alphabet: zsetAlphabet(), Bases: zsetBases(), AdvBases: []int{2},
		Command: func(g *Gen, now int64) []string { return g.ZSetCommand() }, Scripts: zsetScripts()}
}
