"""
vlib — orchestration of the checks: build, proof gate, correspondence run, decision, evidence.
See DESIGN.md §5. Nothing here decides a property by itself: the deciding facts are
 (1) the Lean kernel accepting the theorems of Props/<Cxx>.lean (with admissible axioms), and
 (2) the Lean driver's per-transition verdicts (model agreement, executable spec verdict, class).
"""
import sys, os, json, subprocess, time, hashlib, fcntl, re, collections, shutil, glob

GOENV = dict(GOFLAGS='-mod=mod', GOPROXY='off', GOSUMDB='off', GOTOOLCHAIN='local', CGO_ENABLED='0')
ALLOWED_AXIOMS = {'propext', 'Classical.choice', 'Quot.sound'}
FORBIDDEN = re.compile(r'\bsorry\b|\badmit\b|^\s*axiom\s|native_decide|bv_decide|implemented_by|\bunsafe\s|maxHeartbeats\s+0')

# ---------------------------------------------------------------------------------------------
# property registry: which suites feed a property, which verdict column decides it, which
# transitions are relevant, which Props module holds its theorems.

C01_CMDS = {'set', 'get', 'mset', 'mget', 'del', 'incr', 'decr', 'incrby', 'decrby', 'incrbyfloat', 'append',
            'setrange', 'getrange', 'substr', 'strlen', 'rename', 'getdel', 'getex', 'type', 'flushdb'}
C04_CMDS = {'ttl', 'pttl', 'expiretime', 'pexpiretime', 'expire', 'pexpire', 'expireat', 'pexpireat', 'persist', 'getex'}


def rel_c01(row):
    return row['name'] in C01_CMDS


def rel_c04(row):
    # expiry commands, SET with an expiry option, and any command touching a key that carries a deadline
    if row['name'] in C04_CMDS:
        return True
    if row['name'] == 'set' and any(a.lower() in (b'ex', b'px', b'exat', b'pxat') for a in row['cmd'][3:]):
        return True
    return row['f'].get('dl', '0') == '1'


LIST_CMDS = {'lpush', 'lpushx', 'rpush', 'rpushx', 'lpop', 'rpop', 'llen', 'lrange', 'lindex', 'lset', 'ltrim', 'lrem', 'lmove'}
HASH_CMDS = {'hset', 'hsetnx', 'hget', 'hmget', 'hstrlen', 'hvals', 'hrandfield', 'hlen', 'hkeys', 'hincrby', 'hincrbyfloat', 'hgetall', 'hexists', 'hdel'}
SET_CMDS = {'sadd', 'scard', 'sdiff', 'sdiffstore', 'sinter', 'sintercard', 'sinterstore', 'sismember', 'smembers', 'smismember', 'smove', 'spop', 'srandmember', 'srem', 'sunion', 'sunionstore'}
ZSET_CMDS = {'zadd', 'zcard', 'zcount', 'zdiff', 'zdiffstore', 'zincrby', 'zinter', 'zinterstore', 'zmpop', 'zmscore', 'zpopmax', 'zpopmin', 'zrandmember',
             'zrank', 'zrevrank', 'zrem', 'zscore', 'zremrangebylex', 'zremrangebyrank', 'zremrangebyscore', 'zlexcount', 'zrange', 'zrangestore', 'zunion', 'zunionstore'}
ALL_DATA = [('kv', []), ('list', []), ('hash', []), ('set', []), ('zset', [])]
C01_ONLY = {'numeric-text-rewritten', 'integer-overflow-wraps', 'setrange-absent-key-creates-nothing', 'setrange-non-ascii-bytes-corrupted',
            'getrange-index-panic', 'rename-onto-itself-deletes', 'mget-empty-string-as-nil', 'flushdb-before-first-write-panics',
            'get-on-collection-answers-dump', 'simple-string-reply-carries-crlf'}

PROPS = {
    'C01': dict(suites=[('kv', [])], column='kv', relevant=rel_c01, title='Keyspace is a sequential typed map'),
    'C04': dict(suites=[('kv', [])], column='kv', relevant=rel_c04, title='Expiry',
                # rejections owned by other properties (not about deadlines) that merely happen on keys carrying a deadline
                ignore_foreign=True),
    'C06': dict(suites=[('aclz', []), ('acla', [])] + ALL_DATA, column='acl', relevant=lambda r: r.get('line') in ('Z', 'A') or r['f'].get('acl', 'na') != 'na', title='ACL authorization'),
    'C11': dict(suites=[('acla', [])], column='auth', relevant=lambda r: True, title='Authentication and user lifecycle'),
    'C12': dict(suites=ALL_DATA + [('acla', []), ('wire', [])], column='wire', clscol='wcls', relevant=lambda r: True, title='Wire protocol'),
    'C13': dict(suites=ALL_DATA, column='pure', clscol='pcls', relevant=lambda r: True, title='Read-only commands are pure'),
    'C14': dict(suites=[('hash', [])], column='kv', relevant=lambda r: r['name'] in HASH_CMDS, title='Hash commands'),
    'C15': dict(suites=[('list', [])], column='kv', relevant=lambda r: r['name'] in LIST_CMDS, title='List commands'),
    'C16': dict(suites=[('set', [])], column='kv', relevant=lambda r: r['name'] in SET_CMDS, title='Set commands'),
    'C02': dict(suites=[('aof', [])], column='dur', clscol='dcls', relevant=lambda r: 'C02' in r['f'].get('own', ''), title='Append-only log durability'),
    'C03': dict(suites=[('snap', []), ('sched', [])], column='dur', clscol='dcls', relevant=lambda r: 'C03' in r['f'].get('own', ''), title='Snapshot round trip'),
    'C10': dict(suites=[('snap', [])], column='dur', clscol='dcls', relevant=lambda r: 'C10' in r['f'].get('own', ''), title='Snapshots are crash-atomic'),
    'C05': dict(suites=[('sched', [])], column='atom', clscol='acls', relevant=lambda r: 'atom' in r['f'], title='Commands are atomic'),
    'C09': dict(suites=[('aof', [])], column='dur', clscol='dcls', relevant=lambda r: 'C09' in r['f'].get('own', ''), title='Log rewrite transparent and crash-atomic'),
    'C07': dict(suites=[('raft', [])], column='rep', clscol='rcls', relevant=lambda r: True, title='Replication: replicas apply the leader\'s writes identically, in order'),
    'C18': dict(suites=[('pubsub', [])], column='ps', clscol='scls', relevant=lambda r: True, title='Pub/Sub'),
    'C17': dict(suites=[('zset', [])], column='kv', relevant=lambda r: r['name'] in ZSET_CMDS, title='Sorted-set commands'),
    'C08': dict(suites=[('evict', [])], column='ev', clscol='ecls', relevant=lambda r: True, title='Max-memory policy',
                assumptions=['schedule: every asynchronous cache update completes before the next keyspace primitive of the same command (forced through verifhook points); per-database adjustMemoryUsage goroutines serialised, every order of them tried by the driver',
                             'heap stamps are wall-clock milliseconds: compared up to order, with every split of consecutive readings into equal/later tried',
                             'usage = the figure the server accounts (memUsed); its agreement with the dataset is C19',
                             'random policies: victims read off the observed survivors and checked for admissibility; MSET of several keys under a limit skipped (map order)',
                             'a command is declared hung after 2.5 s of non-GC process CPU or 4000 scheduler polls without progress; background panics are observed as the death of a child process']),
    'C19': dict(suites=ALL_DATA, column='mem', clscol='mcls', relevant=lambda r: True, title='Memory figure is a function of the dataset'),
    'C20': dict(suites=ALL_DATA + [('aof', []), ('snap', [])], column='iso', relevant=lambda r: r.get('line') != 'X' or r['f'].get('iso', 'na') != 'na', title='Logical databases are isolated'),
}

# ---------------------------------------------------------------------------------------------


def log(*a):
    print(*a, file=sys.stderr, flush=True)


def run(cmd, cwd=None, env=None, timeout=None, stdin=None, stdout=subprocess.PIPE):
    e = dict(os.environ)
    e.update(GOENV)
    if env:
        e.update(env)
    return subprocess.run(cmd, cwd=cwd, env=e, timeout=timeout, stdin=stdin, stdout=stdout, stderr=subprocess.STDOUT, text=True)


class Ctx:
    def __init__(self, root):
        self.root = root
        self.cache = os.path.join(root, '.cache')
        self.lean = os.path.join(root, 'lean')
        self.harness = os.path.join(root, 'harness')
        self.vh = os.path.join(self.cache, 'vh')
        self.driver = os.path.join(self.lean, '.lake', 'build', 'bin', 'driver')
        os.makedirs(self.cache, exist_ok=True)
        os.makedirs(os.path.join(root, 'evidence'), exist_ok=True)
        os.makedirs(os.path.join(root, 'replays'), exist_ok=True)


def strip_comments(src):
    src = re.sub(r'/-.*?-/', '', src, flags=re.S)
    return '\n'.join(l.split('--')[0] for l in src.split('\n'))


def grep_gate(cx):
    bad = []
    for p in glob.glob(os.path.join(cx.lean, '**', '*.lean'), recursive=True):
        if '/.lake/' in p:
            continue
        body = strip_comments(open(p, encoding='utf-8').read())
        for i, l in enumerate(body.split('\n')):
            if FORBIDDEN.search(l):
                bad.append('%s:%d: %s' % (os.path.relpath(p, cx.root), i + 1, l.strip()[:100]))
    return bad


def build(cx, prop=None):
    """Rebuild harness + generated facts + Lean targets from /repo's current tree.
    Returns dict(harness_ok, lean_ok, lean_log, prop_ok, prop_log)."""
    res = dict(harness_ok=False, lean_ok=False, prop_ok=None, lean_log='', prop_log='', harness_log='')
    lock = open(os.path.join(cx.cache, 'lock'), 'w')
    fcntl.flock(lock, fcntl.LOCK_EX)
    try:
        repo = os.environ.get('VERIF_REPO', '/repo')     # VERIF_REPO: build against another working tree of the project
        shutil.copyfile(os.path.join(repo, 'go.sum'), os.path.join(cx.harness, 'go.sum'))
        extra = []
        if repo != '/repo':
            mf = os.path.join(cx.cache, 'alt.mod')
            open(mf, 'w').write(open(os.path.join(cx.harness, 'go.mod')).read().replace('=> /repo', '=> ' + repo))
            shutil.copyfile(os.path.join(repo, 'go.sum'), os.path.join(cx.cache, 'alt.sum'))
            extra = ['-modfile=' + mf]
        r = run(['go', 'build'] + extra + ['-tags', 'verif', '-o', cx.vh + '.new', './vh/'], cwd=cx.harness, timeout=900)
        res['harness_log'] = r.stdout
        if r.returncode != 0:
            return res
        os.replace(cx.vh + '.new', cx.vh)
        res['harness_ok'] = True
        # regenerate facts into a scratch dir; copy only what changed (keeps lake's no-op fast)
        tmp = os.path.join(cx.cache, 'gen')
        shutil.rmtree(tmp, ignore_errors=True)
        os.makedirs(tmp)
        r = run([cx.vh, 'gen-facts', '-lean', tmp], timeout=120)
        if r.returncode != 0:
            res['harness_log'] += r.stdout
            res['harness_ok'] = False
            return res
        gdir = os.path.join(cx.lean, 'SugarModel', 'Generated')
        new = {os.path.basename(p): open(p).read() for p in glob.glob(os.path.join(tmp, 'SugarModel', 'Generated', '*.lean'))}
        for p in glob.glob(os.path.join(gdir, '*.lean')):
            if os.path.basename(p) not in new:
                os.remove(p)
        for name, body in new.items():
            dst = os.path.join(gdir, name)
            if not os.path.exists(dst) or open(dst).read() != body:
                open(dst, 'w').write(body)
        r = run(['lake', 'build', 'SugarModel', 'driver'], cwd=cx.lean, timeout=3000)
        res['lean_log'] = r.stdout
        res['lean_ok'] = r.returncode == 0
        if prop is not None and os.path.exists(os.path.join(cx.lean, 'SugarModel', 'Props', prop + '.lean')):
            r = run(['lake', 'build', 'SugarModel.Props.' + prop], cwd=cx.lean, timeout=3000)
            res['prop_log'] = r.stdout
            res['prop_ok'] = r.returncode == 0
        return res
    finally:
        fcntl.flock(lock, fcntl.LOCK_UN)
        lock.close()


AUDIT_TMPL = '''import Lean
import SugarModel.Props.%s
open Lean Elab Command
elab "#audit_props" : command => do
  let env ← getEnv
  for (name, info) in env.constants.toList do
    if let .thmInfo _ := info then
      if (`Sugar.Props.%s).isPrefixOf name && !name.isInternal then
        let axs ← liftCoreM (Lean.collectAxioms name)
        let axsStr := ", ".intercalate (axs.toList.map fun a => "\\"" ++ a.toString ++ "\\"")
        IO.println s!"\\{\\"theorem\\": \\"{name}\\", \\"axioms\\": [{axsStr}]}"
#audit_props
'''


def audit(cx, prop):
    """theorems of Props.<prop> with their axioms (empty list if the module does not exist)."""
    if not os.path.exists(os.path.join(cx.lean, 'SugarModel', 'Props', prop + '.lean')):
        return [], ''
    path = os.path.join(cx.cache, 'Audit_%s.lean' % prop)
    open(path, 'w').write(AUDIT_TMPL % (prop, prop))
    r = run(['lake', 'env', 'lean', path], cwd=cx.lean, timeout=900)
    thms = []
    for l in r.stdout.split('\n'):
        l = l.strip()
        if l.startswith('{"theorem"'):
            thms.append(json.loads(l))
    return thms, r.stdout


# ---------------------------------------------------------------------------------------------
# transcripts


def unx(t):
    return bytes.fromhex(t[1:])


def parse_tline(line):
    w = line.split(' ')
    i = w.index('C')
    argc = int(w[i + 1])
    cmd = [unx(x) for x in w[i + 2:i + 2 + argc]]
    j = i + 2 + argc
    kind = w[j + 1]
    payload = unx(w[j + 2])
    s = w.index('S', j)
    e = len(w) - 1 - w[::-1].index('E')
    return dict(seq=w[1], now=int(w[2]), db=int(w[3]), cmd=cmd, kind=kind, payload=payload,
                pre=' '.join(w[s + 1:e]), post=' '.join(w[e + 1:]),
                name=(cmd[0].decode('latin1').lower() if cmd else ''))


def parse_verdict(line):
    a = line.rstrip('\n').split(' ## ')
    head = a[0].split(' ')
    seq = head[0]
    model = head[1] if len(head) > 1 else '?'
    detail = ' '.join(head[2:])
    f = {}
    if len(a) > 1:
        for kv in a[1].split(' '):
            if '=' in kv:
                k, v = kv.split('=', 1)
                f[k] = v
    return seq, model, detail, f


def run_suite(cx, work, suite, args, seed, tier, replay=None):
    """run one harness suite and the driver over its transcript; returns rows"""
    tr = os.path.join(work, suite + '.tr')
    seqs = os.path.join(work, suite + '.seqs')
    vd = os.path.join(work, suite + '.verdicts')
    cmd = [cx.vh, suite, '-seed', str(seed), '-tier', tier, '-out', tr] + args
    if replay:
        cmd += ['-replay', replay]
    t0 = time.time()
    r = run(cmd, env={'VH_SEQS': seqs}, timeout=7200)
    if r.returncode != 0:
        raise RuntimeError('harness suite %s failed: %s' % (suite, r.stdout[-2000:]))
    with open(tr) as fi, open(vd, 'w') as fo:
        r = subprocess.run([cx.driver], stdin=fi, stdout=fo, stderr=subprocess.PIPE, text=True, timeout=7200)
    if r.returncode != 0:
        raise RuntimeError('driver failed: %s' % r.stderr[-2000:])
    rows = []
    verd = {}
    for l in open(vd):
        seq, model, detail, f = parse_verdict(l)
        verd[seq] = (model, detail, f)
    for l in open(tr):
        if l.startswith('Z ') or l.startswith('A ') or l.startswith('W '):
            w = l.rstrip('\n').split(' ')
            seq = w[1]
            m = verd.get(seq, ('?', 'no verdict', {}))
            cmd = []
            kind, payload = '', b''
            if l.startswith('A '):
                i = w.index('C')
                argc = int(w[i + 1])
                cmd = [unx(x) for x in w[i + 2:i + 2 + argc]]
                j = w.index('R', i + 2 + argc)
                kind, payload = w[j + 1], unx(w[j + 2])
                name = ' '.join(c.decode('latin1').lower() for c in cmd[:2]) if cmd and cmd[0].lower() in (b'acl', b'pubsub') else (cmd[0].decode('latin1').lower() if cmd else '')
            elif l.startswith('W '):
                name = 'wire-' + w[2]
                kind = 'session'
                cmd = [unx(x)[:40] for x in w[4:4 + int(w[3])]]
            else:
                kind = w[-1]
                name = 'authorize'
            rows.append(dict(seq=seq, now=0, db=0, cmd=cmd, kind=kind, payload=payload, pre='', post='', name=name,
                             model=m[0], detail=m[1], f=m[2], suite=suite, line=l[0]))
        elif l.startswith('I '):
            w = l.split(' ')
            seq = w[1]
            m = verd.get(seq, ('?', 'no verdict', {}))
            ia, ib, ik = w.index('CA'), w.index('CB'), w.index('K')
            ca = [unx(x) for x in w[ia + 2:ib]]
            cb = [unx(x) for x in w[ib + 2:ik]]
            rows.append(dict(seq=seq, now=0, db=0, cmd=ca + [b'||'] + cb + [b'@' + w[ik + 1].encode()], kind='schedule', payload=b'', pre='', post='x',
                             name=(ca[0].decode('latin1').lower() if ca else '') + '||' + (cb[0].decode('latin1').lower() if cb else ''),
                             model=m[0], detail=m[1], f=m[2], suite=suite, line='X'))
        elif l.startswith('S '):
            w = l.rstrip('\n').split(' ')
            seq = w[1]
            m = verd.get(seq, ('?', 'no verdict', {}))
            rows.append(dict(seq=seq, now=0, db=0, cmd=[('threshold=%s changes=%s' % (w[2], w[3])).encode()], kind='fired=' + w[4], payload=b'', pre='', post='x', name='auto-snapshot',
                             model=m[0], detail=m[1], f=m[2], suite=suite, line='X'))
        elif l.startswith('X '):
            w = l.split(' ', 12)
            seq = w[1]
            m = verd.get(seq, ('?', 'no verdict', {}))
            rows.append(dict(seq=seq, now=0, db=0, cmd=[w[3].encode()], kind='image', payload=b'', pre='', post='x', name='image@' + w[3].split('>')[0].split('~')[0].split('+')[0],
                             model=m[0], detail=m[1], f=m[2], suite=suite, line='X'))
        elif l.startswith('P ') or l.startswith('G '):
            w = l.rstrip('\n').split(' ')
            seq = w[1]
            m = verd.get(seq, ('?', 'no verdict', {}))
            cmd, kind, payload = [], 'glob', b''
            if l.startswith('P '):
                # first command of the block: <conn> <argc> <args>* <kind> <payload>
                n = int(w[3])
                kind = w[2]
                if n > 0:
                    argc = int(w[5])
                    cmd = [unx(x) for x in w[6:6 + argc]]
                    payload = unx(w[6 + argc + 1])
                    if n == 1:
                        kind = w[6 + argc]
                name = m[2].get('shape', 'pubsub').split('/')[0]
            else:
                cmd = [unx(w[2]), unx(w[3])]
                name = 'glob'
            rows.append(dict(seq=seq, now=0, db=0, cmd=cmd, kind=kind, payload=payload, pre='', post='', name=name,
                             model=m[0], detail=m[1], f=m[2], suite=suite, line=l[0]))
        elif l.startswith('V '):
            w = l.rstrip('\n').split(' ')
            i = w.index('C')
            argc = int(w[i + 1])
            cmd = [unx(x) for x in w[i + 2:i + 2 + argc]]
            sidx = w.index('S', i + 2 + argc)
            ridx = len(w) - 1 - w[::-1].index('R')
            eidx = len(w) - 1 - w[::-1].index('E')
            m = verd.get(w[1], ('?', 'no verdict', {}))
            rows.append(dict(seq=w[1], now=int(w[2]), db=int(w[3]), cmd=cmd, kind=w[ridx + 1], payload=unx(w[ridx + 2]),
                             pre=' '.join(w[sidx + 1:ridx]), post=' '.join(w[eidx + 1:]), name=(cmd[0].decode('latin1').lower() if cmd else ''),
                             model=m[0], detail=m[1], f=dict(m[2], shape=w[6] + ':' + w[5]), suite=suite))
        elif l.startswith('F ') or l.startswith('K ') or l.startswith('Q ') or l.startswith('N '):
            # raft suite: one log entry on several state machines / one dispatched command / one batch on a cluster
            w = l.rstrip('\n').split(' ')
            seq = w[1]
            m = verd.get(seq, ('?', 'no verdict', {}))
            cmd, kind, payload, name = [], '', b'', 'batch'
            if l[0] in 'FKN':
                i = w.index('C')
                argc = int(w[i + 1])
                cmd = [unx(x) for x in w[i + 2:i + 2 + argc]]
                j = w.index('R', i + 2 + argc)
                kind, payload = w[j + 1], unx(w[j + 2])
                name = ' '.join(c.decode('latin1').lower() for c in cmd[:2]) if cmd and cmd[0].lower() in (b'acl', b'pubsub', b'command', b'module') else (cmd[0].decode('latin1').lower() if cmd else '')
                name = ('apply:' if l[0] == 'F' else 'transfer:' if l[0] == 'N' else w[2] + ':') + name
            else:
                nops = int(w[4])
                k = 5
                ops = []
                for _ in range(nops):
                    argc = int(w[k + 5])
                    c = [unx(x) for x in w[k + 6:k + 6 + argc]]
                    ops.append((w[k], c, w[k + 2], unx(w[k + 3])))
                    k += 6 + argc
                if ops:
                    cmd = [b'@%s' % ops[-1][0].encode()] + ops[-1][1]
                    kind, payload = ops[-1][2], ops[-1][3]
                    name = 'batch:' + ','.join(sorted({o[1][0].decode('latin1').lower() + '@' + o[0] for o in ops if o[1]}))[:80]
            rows.append(dict(seq=seq, now=0, db=0, cmd=cmd, kind=kind, payload=payload, pre='', post='', name=name,
                             model=m[0], detail=m[1], f=m[2], suite=suite, line=l[0]))
        elif l.startswith('T '):
            t = parse_tline(l.rstrip('\n'))
            m = verd.get(t['seq'], ('?', 'no verdict', {}))
            t['model'], t['detail'], t['f'] = m
            t['suite'] = suite
            rows.append(t)
        elif l.startswith('H '):
            rows.append(dict(seq=l.split()[1], name='?', cmd=[], kind='hang', payload=b'', pre='', post='', now=0, db=0,
                             model='HANG', detail='command did not return', f={}, suite=suite))
    seqmap = {}
    if os.path.exists(seqs):
        for l in open(seqs):
            s = json.loads(l)
            seqmap[s['id']] = s
    return rows, seqmap, time.time() - t0


def seq_prefix(seqmap, seqid):
    if seqid in seqmap and ('z' in seqmap[seqid] or 'writes' in seqmap[seqid] or 'glob' in seqmap[seqid]):
        return seqmap[seqid]                      # a single authorization decision / one wire session
    if seqid in seqmap and 'auto' in seqmap[seqid]:
        return seqmap[seqid]                      # one automatic-snapshot trial
    parts = seqid.split('.')
    if parts[0] in seqmap and 'rkind' in seqmap[parts[0]]:
        # raft suite: the experiment (kind, clocks, role) with its operations cut after the failing one
        s = seqmap[parts[0]]
        if len(parts) < 2:
            return s                              # a snapshot-transfer experiment: one line for the whole sequence
        return dict(s, ops=s['ops'][:int(re.sub(r'\D', '', parts[1]) or 0) + 1])
    if parts[0] in seqmap and 'base' in seqmap[parts[0]]:
        return seqmap[parts[0]]                   # an interleaving experiment: all schedules of the pair are re-run
    if parts[0] in seqmap and 'mode' in seqmap[parts[0]]:
        # persistence history: <sid>.<op>.<image…>; keep every option of the history, cut the ops
        s = seqmap[parts[0]]
        idx = int(re.sub(r'\D', '', parts[1]) or 0)
        return dict(s, ops=s['ops'][:idx + 1])
    sid, idx = seqid.rsplit('.', 1)
    s = seqmap.get(sid)
    if s is None:
        return None
    idx = int(idx.rstrip('r'))
    return dict(id=sid, opts=s.get('opts', {}), ops=s['ops'][:idx + 1])


def pretty_cmd(cmd):
    return ' '.join(c.decode('latin1') if all(32 <= x < 127 for x in c) and c else repr(c)[1:] for c in cmd)


# ---------------------------------------------------------------------------------------------
# known findings


def load_known(cx, prop):
    p = os.path.join(cx.root, 'known_findings.json')
    if not os.path.exists(p):
        return []
    return [k for k in json.load(open(p))['findings'] if k['property'] == prop]


def replay_seq(cx, work, suite, seq, tag):
    rp = os.path.join(work, 'replay_%s.json' % tag)
    json.dump({'seq': seq}, open(rp, 'w'))
    sub = os.path.join(work, 'rp_' + tag)
    os.makedirs(sub, exist_ok=True)
    rows, _, _ = run_suite(cx, sub, suite, [], 0, 'quick', replay=rp)
    return rows


def pick_row(rows, column, clscol=None, cls=None):
    """the row a replay is judged by: the last one, except for persistence histories (many images per
    history) where it is the first failing image (of class `cls` if given)"""
    if not rows:
        return None
    if rows[-1].get('line') == 'X' or any(r.get('line') == 'X' for r in rows):
        for r in rows:
            if r.get('line') == 'X' and failing(r, column) and (cls is None or r['f'].get(clscol) == cls):
                return r
        xs = [r for r in rows if r.get('line') == 'X']
        return xs[-1] if xs else rows[-1]
    return rows[-1]


def failing(row, column):
    """does this row witness a departure: model diff / hang, or a spec rejection in `column`"""
    v = row['f'].get(column, 'na')
    return row['model'] in ('DIFF', 'HANG', '?') or v.startswith('rej')


def shrink(cx, work, suite, seq, pred, budget=60):
    """greedy one-op-at-a-time removal keeping `pred(last row)` true"""
    if not seq.get('ops'):
        return seq
    if seq.get('rkind') in ('cluster', 'disp'):
        budget = min(budget, 8)          # every replay starts a three-node cluster
    ops = seq['ops']
    tries = 0
    i = 0
    while i < len(ops) - 1 and tries < budget:
        cand = dict(seq, ops=ops[:i] + ops[i + 1:])
        # clock advances ride on ops: fold a removed op's advance into the next one
        if ops[i].get('adv'):
            nxt = dict(cand['ops'][i])
            nxt['adv'] = nxt.get('adv', 0) + ops[i]['adv']
            cand['ops'] = cand['ops'][:i] + [nxt] + cand['ops'][i + 1:]
        tries += 1
        try:
            rows = replay_seq(cx, work, suite, cand, 'shrink')
        except Exception:
            rows = []
        if rows and (any(pred(r) for r in rows if r.get('line') == 'X') if any(r.get('line') == 'X' for r in rows) else pred(rows[-1])):
            ops = cand['ops']
        else:
            i += 1
    # blocks of several commands (pub/sub): also drop commands inside the last block
    if ops and isinstance(ops[-1], dict) and len(ops[-1].get('cmds', [])) > 1:
        j = 0
        while j < len(ops[-1]['cmds']) and len(ops[-1]['cmds']) > 1 and tries < budget + 20:
            blk = dict(ops[-1], cmds=ops[-1]['cmds'][:j] + ops[-1]['cmds'][j + 1:])
            cand = dict(seq, ops=ops[:-1] + [blk])
            tries += 1
            try:
                rows = replay_seq(cx, work, suite, cand, 'shrink')
            except Exception:
                rows = []
            if rows and pred(rows[-1]):
                ops = cand['ops']
            else:
                j += 1
    return dict(seq, ops=ops)


# ---------------------------------------------------------------------------------------------


def write_replay(cx, prop, body):
    h = hashlib.sha1(json.dumps(body, sort_keys=True).encode()).hexdigest()[:12]
    path = os.path.join('replays', '%s-%s.json' % (prop, h))
    json.dump(body, open(os.path.join(cx.root, path), 'w'), indent=1)
    return path


def row_summary(r):
    return dict(seq=r['seq'], cmd=pretty_cmd(r['cmd']), observed=r['kind'] + ':' + repr(r['payload'][:60])[1:],
                model=r['model'], detail=r['detail'][:300], verdicts=r['f'])


def decide(cx, prop, tier, seed, t_start):
    spec = PROPS[prop]
    work = os.path.join(cx.root, '.work', '%s-%d' % (prop, os.getpid()))
    shutil.rmtree(work, ignore_errors=True)
    os.makedirs(work)
    out_lines = []
    violations = []
    notes = []

    b = build(cx, prop)
    if not b['harness_ok']:
        log(b['harness_log'][-3000:])
        log('check: the harness does not build against /repo (hooks enabled)')
        return 2
    # ---- proof gate
    gate_broken = None
    if not b['lean_ok']:
        gate_broken = 'lake build SugarModel driver failed:\n' + '\n'.join(l for l in b['lean_log'].split('\n') if 'error' in l)[:1500]
    elif b['prop_ok'] is False:
        gate_broken = 'lake build SugarModel.Props.%s failed:\n' % prop + '\n'.join(l for l in b['prop_log'].split('\n') if 'error' in l)[:1500]
    thms, audit_out = ([], '')
    bad_axioms = []
    if gate_broken is None:
        thms, audit_out = audit(cx, prop)
        for t in thms:
            extra = [a for a in t['axioms'] if a not in ALLOWED_AXIOMS]
            if extra:
                bad_axioms.append((t['theorem'], extra))
        if os.path.exists(os.path.join(cx.lean, 'SugarModel', 'Props', prop + '.lean')) and not thms:
            gate_broken = 'audit found no theorem in Props.%s: %s' % (prop, audit_out[-500:])
    forb = grep_gate(cx)
    if forb:
        gate_broken = (gate_broken or '') + '\nforbidden constructs: ' + '; '.join(forb[:5])
    if bad_axioms:
        gate_broken = (gate_broken or '') + '\ninadmissible axioms: %r' % bad_axioms[:5]
    leanchecker_note = None
    if tier == 'thorough' and gate_broken is None and thms:
        r = run(['lake', 'env', 'leanchecker', 'SugarModel.Props.' + prop], cwd=cx.lean, timeout=3000)
        leanchecker_note = 'leanchecker exit %d' % r.returncode
        if r.returncode != 0:
            gate_broken = 'leanchecker rejected Props.%s: %s' % (prop, r.stdout[-800:])

    rows_all = []
    seqmaps = {}
    harness_s = 0.0
    if b['lean_ok']:
        # ---- known findings first: replay each witness
        known = load_known(cx, prop)
        known_classes = {k['class'] for k in known if k.get('status') == 'known'}
        for k in known:
            if k.get('status') != 'known':
                continue
            try:
                rows = replay_seq(cx, work, k['witness']['suite'], k['witness']['seq'], 'known')
            except Exception as e:
                notes.append('witness of %s could not be replayed: %s' % (k['class'], e))
                continue
            last = pick_row(rows, spec['column'], spec.get('clscol', 'cls'), k['class'])
            v = last['f'].get(spec['column'], 'na') if last else 'na'
            if last and v.startswith('rej') and last['f'].get(spec.get('clscol', 'cls')) == k['class']:
                out_lines.append('KNOWN-FINDING: property=%s %s: %s' % (prop, k['class'], k['fails']))
            else:
                notes.append('listed finding %s did not reproduce on its witness (verdict %s, class %s) — not an alarm' % (k['class'], v, last['f'].get(spec.get('clscol', 'cls')) if last else None))
        # ---- sweep
        for suite, args in spec['suites']:
            try:
                rows, seqmap, dt = run_suite(cx, work, suite, args, seed, tier)
            except RuntimeError as e:
                log('check: %s' % e)        # the machinery failed (e.g. observation points missing from the tree)
                return 2
            harness_s += dt
            rows_all += rows
            seqmaps[suite] = seqmap
    else:
        known_classes = set()
        known = []

    col = spec['column']
    clscol = spec.get('clscol', 'cls')
    if spec.get('ignore_foreign'):
        allc = set(json.load(open(os.path.join(cx.root, 'findings', 'descriptions.json'))))
        mine = set(json.load(open(os.path.join(cx.root, 'findings', 'owners.json'))).get(prop, []))
        spec = dict(spec, ignore_classes=allc - mine)
    rel = [r for r in rows_all if r['model'] == 'HANG' or spec['relevant'](r)]
    counts = collections.Counter()
    diffs, rejs_unknown, rejs_known = [], [], collections.Counter()
    for r in rel:
        v = r['f'].get(col, 'na')
        cls = r['f'].get(clscol, '-')
        counts['model:' + r['model']] += 1
        counts['spec:' + v.split(':')[0]] += 1
        if r['model'] in ('DIFF', 'HANG', '?'):
            diffs.append(r)
        if v.startswith('rej'):
            if cls in spec.get('ignore_classes', ()) and r['model'] in ('OK', 'SKIP'):
                counts['ignored-foreign-class'] += 1
            elif cls in known_classes and r['model'] not in ('DIFF', 'HANG', '?'):
                rejs_known[cls] += 1
            else:
                rejs_unknown.append(r)

    def emit_violation(kind, row, extra, found):
        suite = row['suite'] if row else None
        seq = seq_prefix(seqmaps.get(suite, {}), row['seq']) if row else None
        if seq is not None and found:
            try:
                # keep what makes the transition an alarm: a model diff / hang, or a rejection outside the listed classes
                # (shrinking towards a rejection that is a listed finding would lose the failure)
                seq = shrink(cx, work, suite, seq, lambda x: (x['model'] == 'HANG' or spec['relevant'](x)) and (x['model'] in ('DIFF', 'HANG', '?') or
                             (x['f'].get(col, 'na').startswith('rej') and x['f'].get(clscol, '-') not in known_classes)))
            except Exception as e:
                notes.append('shrink failed: %s' % e)
        body = dict(property=prop, kind=kind, suite=suite, seq=seq, detail=extra,
                    failing_transition=row_summary(row) if row else None, seed=seed, tier=tier)
        path = write_replay(cx, prop, body)
        line = 'VIOLATION property=%s replay=%s' % (prop, path)
        if not found:
            line += ' no-failing-input-found'
        out_lines.append(line)
        violations.append(body)

    # 1. a spec rejection outside the listed findings (or a listed class failing differently from the model)
    if rejs_unknown:
        r0 = sorted(rejs_unknown, key=lambda r: (r['f'].get(clscol, '-') in known_classes, int(re.sub(r'\D', '', r['seq'].rsplit('.', 1)[-1]) or 0)))[0]
        emit_violation('spec-rejection', r0, 'spec verdict %s class %s; %d such transitions' % (r0['f'].get(col), r0['f'].get(clscol), len(rejs_unknown)), True)
    # 2. model/implementation disagreement with the spec still satisfied at those transitions
    elif diffs:
        # a diff inside a listed class where the implementation now meets the spec = a defect stopped reproducing
        real = [r for r in diffs if not (r['f'].get(clscol) in known_classes and r['f'].get(col, 'na') in ('adm',))]
        if real:
            r0 = real[0]
            emit_violation('correspondence', r0, 'model and implementation disagree (%s) on %d transitions; the spec admits the observed behaviour there, and the sweep found no input on which the property fails; correspondence no longer checks: command=%s field=%s'
                           % (r0['detail'][:200], len(real), r0['name'], r0['detail'].split(' ')[0] if r0['detail'] else '?'), False)
        else:
            notes.append('%d model diffs confined to listed classes where the implementation now satisfies the spec' % len(diffs))
    # 3. broken proof obligation and nothing found
    if gate_broken and not violations:
        body = dict(property=prop, kind='proof-obligation', detail=gate_broken, theorem_or_module='SugarModel.Props.' + prop, seed=seed, tier=tier)
        path = write_replay(cx, prop, body)
        out_lines.append('VIOLATION property=%s replay=%s no-failing-input-found' % (prop, path))
        violations.append(body)

    # ---- evidence
    distinct = set()
    for r in rel:
        if r.get('line') in ('Z', 'A', 'W', 'P', 'G', 'F', 'K', 'Q', 'N') or r['pre'] != r['post'] or (r['kind'] == 'ok' and r['payload'] not in (b'$-1\r\n', b'')):
            distinct.add((r['name'], len(r['cmd']), r['kind'], r['f'].get(col, 'na'), r['f'].get(clscol, '-'), r['f'].get('shape', '')))
    samples = []
    seen = set()
    for r in rel:
        key = (r['name'], r['f'].get(col, 'na'))
        if key not in seen and len(samples) < 12:
            seen.add(key)
            samples.append(row_summary(r))
    have_props = bool(thms) and gate_broken is None
    level = 'proof' if have_props else 'translation_validation'
    cov = dict(
        evaluations=len(rel), distinct_nontrivial=len(distinct),
        rule='transitions of the harness suites %s relevant to %s; distinct = (command, arity, result kind, spec verdict, class, key shape) among transitions that changed state or returned data' % ([s for s, _ in spec['suites']], prop),
        samples=samples, exhaustive=False,
        traces_validated_against_impl=len([r for r in rel if r['model'] == 'OK']),
        programs=len({r['name'] for r in rel}), disagreements_checked=len(diffs),
        obligations=len(thms), discharged=len(thms) - len(bad_axioms) if gate_broken is None else 0,
        checker_cmd='cd lean && lake build SugarModel.Props.%s && lake env lean .cache/Audit_%s.lean%s' % (prop, prop, ' && lake env leanchecker SugarModel.Props.' + prop if tier == 'thorough' else ''),
        trusted_base=['Lean 4.33.0 kernel', 'axioms: ' + ', '.join(sorted({a for t in thms for a in t['axioms']})),
                      'hand-written model tied to /repo by per-transition correspondence (this run) and regenerated facts',
                      'Go harness vh + dump code; Lean driver (compiled, not kernel-checked)'],
        theorems=[t['theorem'] for t in thms],
        histogram=dict(counts), known_classes_observed=dict(rejs_known), notes=notes,
        model_skips=dict(collections.Counter(r['detail'] for r in rel if r['model'] == 'SKIP').most_common(12)),
        commands=dict(collections.Counter(r['name'] for r in rel).most_common(60)),
    )
    if leanchecker_note:
        cov['leanchecker'] = leanchecker_note
    try:
        _meta = json.load(open(os.path.join(cx.root, 'findings', 'manifest_meta.json')))['checks'].get(prop, {})
    except Exception:
        _meta = {}
    ev = dict(property_id=prop, tier=tier, seed=seed, level=level, coverage=cov,
              assumptions=(spec.get('assumptions') or []) + ([_meta['note']] if _meta.get('note') else []) + ['float64 modelled as exact decimals on the ≤15-digit / dyadic domain; transitions outside are skipped and counted in model_skips',
                           'Go map iteration order and goroutine scheduling below the keyspace primitives are not exercised by this suite',
                           'virtual clock at millisecond granularity'],
              wall_s=round(time.time() - t_start, 2), violations=len(violations))
    json.dump(ev, open(os.path.join(cx.root, 'evidence', prop + '.json'), 'w'), indent=1, default=str)
    for l in out_lines:
        print(l)
    for n in notes:
        log('note:', n)
    log('%s %s: %d relevant transitions (%s), %d theorems, %.1fs' % (prop, tier, len(rel), dict(counts), len(thms), time.time() - t_start))
    shutil.rmtree(work, ignore_errors=True)
    return 1 if violations else 0


def do_replay(cx, prop, path):
    spec = PROPS[prop]
    body = json.load(open(path if os.path.isabs(path) else os.path.join(cx.root, path)))
    b = build(cx, prop)
    if not (b['harness_ok'] and b['lean_ok']):
        log('build failed')
        return 2
    if not body.get('seq'):
        print('replay names a proof obligation / correspondence, not an input:')
        print(body.get('detail'))
        return 1
    work = os.path.join(cx.root, '.work', 'replay-%d' % os.getpid())
    os.makedirs(work, exist_ok=True)
    rows = replay_seq(cx, work, body['suite'], body['seq'], 'user')
    bad = False
    for r in rows:
        v = r['f'].get(spec['column'], 'na')
        print('%-10s %-40s -> %s %r | model=%s %s | spec[%s]=%s class=%s' % (r['seq'], pretty_cmd(r['cmd'])[:40], r['kind'], r['payload'][:50], r['model'], r['detail'][:120], spec['column'], v, r['f'].get(spec.get('clscol', 'cls'))))
    if rows and failing(rows[-1], spec['column']):
        bad = True
        print('REPRODUCED: last transition still departs (model=%s, spec=%s)' % (rows[-1]['model'], rows[-1]['f'].get(spec['column'])))
    shutil.rmtree(work, ignore_errors=True)
    return 1 if bad else 0


def main(root, argv):
    cx = Ctx(root)
    t0 = time.time()
    if not argv:
        print(__doc__)
        return 2
    if argv[0] == '--setup':
        b = build(cx, None)
        if not b['harness_ok']:
            log(b['harness_log'][-3000:])
            return 2
        if not b['lean_ok']:
            log(b['lean_log'][-3000:])
            return 2
        r = run(['lake', 'build', 'SugarModel.Props.All'], cwd=cx.lean, timeout=3000)
        if r.returncode != 0:
            log(r.stdout[-3000:])
            return 2
        log('setup ok in %.1fs' % (time.time() - t0))
        return 0
    prop = argv[0]
    if prop not in PROPS:
        log('unknown property', prop)
        return 2
    if len(argv) >= 3 and argv[1] == '--replay':
        return do_replay(cx, prop, argv[2])
    tier = argv[1] if len(argv) > 1 else os.environ.get('VERIF_TIER', 'quick')
    seed = int(os.environ.get('VERIF_SEED', '1'))
    return decide(cx, prop, tier, seed, t0)
